"""Save/reload cycles on generated objects and corpus files (bounded stand-in for C02 and C15).

usage: /venv/bin/python roundtrip_probe.py <seed> <quick|thorough>
For each read/write format: objects over the format's documented domain are dumped and reloaded.
  C02: generation 1 equals generation 0 on every attribute the format stores (discrete exactly, reals to the
       printed digits); objects carrying all required data are written rather than refused.
  C15: generation 2 is bit-identical to generation 1 and the files of generations 2 and 3 are byte-identical."""

import glob
import hashlib
import json
import os
import re
import sys
import tempfile
import warnings

import numpy as np

warnings.simplefilter("ignore")
import iodata  # noqa: E402
from iodata import IOData, dump_one, load_one  # noqa: E402
from iodata.api import FORMAT_MODULES  # noqa: E402
from iodata.convert import convert_conventions  # noqa: E402
from iodata.utils import Cube, DumpError, LoadError, PrepareDumpError, angstrom  # noqa: E402

seed = int(sys.argv[1]) if len(sys.argv) > 1 else 0
tier = sys.argv[2] if len(sys.argv) > 2 else "quick"
rng = np.random.default_rng(seed)
tmp = tempfile.mkdtemp()
__import__("atexit").register(__import__("shutil").rmtree, tmp, True)
data_dir = os.path.join(os.path.dirname(iodata.__file__), "test", "data")
c02, c15 = [], []
cases = {"c02": 0, "c15": 0}
by_fmt = {"c02": {}, "c15": {}}
ELEMS = [1, 2, 6, 7, 8, 9, 15, 16, 17, 26, 35, 53, 79, 92, 118]


def rec(lst, fmt, obj, what, detail="", cat=None):
    """Failures are grouped as <format>.<category>; a known finding names one group."""
    group = f"{fmt}.{cat or what.split(':')[0].replace(' ', '-')}"
    if cat in ("unreadable", "cycle-fails", "refused", "required-only") and detail:
        # the cause is part of the identity of a finding: another cause in the same format is another finding
        words = re.sub(r"[^A-Za-z ]+", " ", str(detail).split("(", 1)[-1]).split()
        group += ":" + "-".join(w.lower() for w in words[:6])
    # sub-domain of the object, so that a recorded finding does not cover the ordinary objects of the format
    m = re.match(r"n=(\d+),nbond=(\d+)", obj)
    if "wide=extreme" in obj:
        group += "@extreme-coordinates"
    elif "values-below-1e-99" in obj:
        group += "@values-below-1e-99"
    elif "title-of-blanks" in obj:
        group += "@title-of-blanks"
    elif obj in ("default-atom-names,n=100", "bfactor-needs-seven-characters", "ghost-atom") or "float-nelec" in obj:
        group += "@" + obj.split(",")[-1] if "float-nelec" in obj else "@" + obj.split(",")[0]
    elif m and max(int(m.group(1)), int(m.group(2))) >= 100:
        group += "@100-or-more-atoms-or-bonds"
    if len([1 for f in lst if f["group"] == group]) < 3:
        lst.append({"group": group, "format": fmt, "object": obj, "what": what, "detail": str(detail)[:300]})


def molecule(natom, wide=False, bonds=True):
    atnums = rng.choice(ELEMS, size=natom)
    coords = rng.uniform(-8, 8, size=(natom, 3))
    if wide and natom > 1:
        coords[0] = [-123.4567, 98.7654, -0.000012]
    b = None
    if bonds and natom > 1:
        b = [[i, i + 1, [1, 2, 3, 5][i % 4]] for i in range(natom - 1)]
        # a star on atom 0 with 4 / 8 neighbours in total (CONECT records hold four neighbours each)
        b += [[0, j, 1] for j in range(2, min(natom, 9 if natom > 10 else 5))]
        b = np.array(b)
    return atnums, coords, b


def objects_for(fmt):
    """(label, IOData, tolerance on reals) over the format's documented domain."""
    sizes = [1, 2, 9, 10, 11, 99, 100, 101] if tier == "quick" else [1, 2, 9, 10, 11, 99, 100, 101, 999, 1000, 1001, 9999, 10000, 12000]
    out = []
    if fmt in ("xyz", "pdb", "mol2", "sdf", "poscar"):
        for n in sizes:
            for wide in (False, True, "extreme"):
                atnums, coords, bonds = molecule(n, bool(wide))
                if wide == "extreme":
                    # the ends of the range the coordinate columns can hold (angstrom)
                    ext = {"pdb": [-999.999, 9999.999, -0.001], "sdf": [-9999.9999, 99999.9999, 0.0001]}.get(fmt, [-12345.6789, 123456.789, -1000.5])
                    for i in range(min(n, 3)):
                        coords[i] = np.roll(ext, i) * angstrom
                kw = dict(atnums=atnums, atcoords=coords, title=f"mol {n}")
                if fmt in ("pdb", "mol2", "sdf"):
                    kw["bonds"] = bonds
                if fmt == "mol2":
                    kw["atcharges"] = {"mol2charges": rng.uniform(-1, 1, n).round(4)}
                    kw["atffparams"] = {"attypes": np.array([f"X{i % 7}" for i in range(n)])}
                if fmt == "pdb":
                    kw["atffparams"] = {"attypes": np.array([f"A{i % 9}" for i in range(n)]), "restypes": np.array(["RES"] * n), "resnums": np.arange(n) % 9999 + 1}
                    kw["extra"] = {"occupancies": rng.uniform(0, 1, n).round(2), "bfactors": rng.uniform(0, 99, n).round(2), "chainids": np.array(["A"] * n)}
                    if wide is True:
                        kw["atcoords"] = np.clip(coords, -99, 99)
                    if n == 2:
                        kw["extra"]["compound"] = "MOL_ID: 1;\nMOLECULE: SOMETHING LONG;\nCHAIN: A;"
                    if n == 9 and wide is False:
                        # large entries have more than 99 COMPND lines (three-digit continuation numbers)
                        kw["extra"]["compound"] = "\n".join(f"MOL_ID: {k};" for k in range(1, 106))
                if fmt == "poscar":
                    kw["cellvecs"] = np.array([[9.0, 0.1, 0.0], [0.0, 8.0, 0.2], [0.3, 0.0, 7.0]])
                out.append((f"n={n},nbond={0 if bonds is None else len(bonds)},wide={wide}", IOData(**kw), {"pdb": 1e-3, "mol2": 2e-4, "sdf": 2e-4, "xyz": 2e-10, "poscar": 1e-9}[fmt]))
        if fmt == "xyz":
            atnums, coords, _ = molecule(5)
            out.append(("optional-absent", IOData(atnums=atnums, atcoords=coords), 1e-9))
        if fmt == "pdb":
            # default atom names (no attypes given) of 100 two-letter elements: 'Cl100' needs five characters
            n100 = 100
            out.append(("default-atom-names,n=100", IOData(atnums=np.full(n100, 17), atcoords=rng.uniform(-9, 9, size=(n100, 3)), title="cl"), 1e-3))
            # a temperature factor that needs seven characters, on an atom named CA (alpha carbon)
            bb = IOData(atnums=[7, 6, 6, 8], atcoords=rng.uniform(-9, 9, size=(4, 3)), title="ala", atffparams={"attypes": np.array(["N", "CA", "C", "O"]), "restypes": np.array(["ALA"] * 4), "resnums": np.array([1] * 4)}, extra={"occupancies": np.ones(4), "bfactors": np.array([10.0, 1250.0, 12.0, 13.0]), "chainids": np.array(["A"] * 4)})
            out.append(("bfactor-needs-seven-characters", bb, 1e-3))
        # a title made of blanks only (a legitimate single-line title)
        atnums, coords, _ = molecule(2)
        kwb = dict(atnums=atnums, atcoords=coords, title="   ")
        if fmt == "poscar":
            kwb["cellvecs"] = np.eye(3) * 9.0
        out.append(("title-of-blanks", IOData(**kwb), 1e-3))
    if fmt == "cube":
        for shape in [(2, 2, 2), (2, 3, 7), (3, 1, 6), (1, 5, 13)]:
            atnums, coords, _ = molecule(3)
            data = rng.normal(size=shape)
            tails = data.copy()
            tails.flat[1::3] = [-8.25e-100, 7.5e-100, -3.0e-120][: len(tails.flat[1::3])] + [0.0] * max(0, len(tails.flat[1::3]) - 3)
            out.append((f"shape={shape},values-below-1e-99", IOData(atnums=atnums, atcoords=coords, title="cube", cube=Cube(origin=np.zeros(3), axes=np.eye(3) * 0.3, data=tails)), 2e-5))
            out.append((f"shape={shape}", IOData(atnums=atnums, atcoords=coords, atcorenums=atnums.astype(float) - 0.5, title="cube", cube=Cube(origin=np.array([0.1, -0.2, 0.3]), axes=np.array([[0.2, 0.01, 0.0], [0.0, 0.3, 0.02], [0.03, 0.0, 0.4]]), data=data)), 2e-5))
            if shape == (2, 2, 2):
                out.append(("ghost-atom", IOData(atnums=atnums, atcoords=coords, atcorenums=np.array([0.0, *atnums[1:].astype(float)]), title="cube", cube=Cube(origin=np.zeros(3), axes=np.eye(3) * 0.3, data=data)), 2e-5))
            out.append((f"shape={shape},fortran-order", IOData(atnums=atnums, atcoords=coords, title="cube", cube=Cube(origin=np.zeros(3), axes=np.eye(3) * 0.3, data=np.asfortranarray(data))), 2e-5))
            out.append((f"shape={shape},transposed-view", IOData(atnums=atnums, atcoords=coords, title="cube", cube=Cube(origin=np.zeros(3), axes=np.eye(3) * 0.3, data=np.ascontiguousarray(data.transpose(2, 1, 0)).transpose(2, 1, 0))), 2e-5))
    if fmt == "fcidump":
        for n in (1, 2, 3, 5):
            a = rng.normal(size=(n, n))
            one = (a + a.T) / 2
            two = np.zeros((n, n, n, n))
            from iodata.utils import set_four_index_element

            for i in range(n):
                for j in range(n):
                    for k in range(n):
                        for l in range(n):
                            if two[i, j, k, l] == 0:
                                set_four_index_element(two, i, j, k, l, float(rng.normal()))
            out.append((f"norb={n}", IOData(one_ints={"core_mo": one}, two_ints={"two_mo": two}, core_energy=1.5, nelec=2, spinpol=0), 1e-12))
            # nelec and spinpol are documented as floats
            out.append((f"norb={n},float-nelec", IOData(one_ints={"core_mo": one}, two_ints={"two_mo": two}, core_energy=1.5, nelec=2.0, spinpol=0.0), 1e-12))
    return out


def compare(a, b, fmt, tol):
    """List of attributes of `b` (reloaded) that differ from `a` (original)."""
    diffs = []

    def num(x, y, name, t=tol):
        if x is None or y is None:
            if (x is None) != (y is None) and x is not None:
                diffs.append(name + " (lost)")
            return
        x, y = np.asarray(x, float), np.asarray(y, float)
        if x.shape != y.shape or not np.allclose(x, y, atol=t, rtol=t):
            diffs.append(name)

    if a.atnums is not None and fmt != "poscar":
        if b.atnums is None or not np.array_equal(a.atnums, b.atnums):
            diffs.append("atnums")
    if fmt == "poscar":
        # documented grouping of atoms by element: compare as multisets of (element, rounded coordinates)
        ka = sorted((int(z), *np.round(r, 3)) for z, r in zip(a.atnums, a.atcoords))
        kb = sorted((int(z), *np.round(r, 3)) for z, r in zip(b.atnums, b.atcoords))
        if len(ka) != len(kb) or not np.allclose(np.array(ka), np.array(kb), atol=5e-3):
            diffs.append("atoms (as a multiset)")
        num(a.cellvecs, b.cellvecs, "cellvecs")
    elif a.atcoords is not None:
        num(a.atcoords, b.atcoords, "atcoords")
    if a.title is not None and fmt in ("xyz", "pdb", "mol2", "sdf", "poscar", "cube", "molden", "fchk", "wfn", "wfx") and (b.title or "").strip() != a.title.strip():
        diffs.append(f"title ({a.title!r} -> {b.title!r})")
    if a.bonds is not None and fmt in ("mol2", "sdf"):
        if b.bonds is None or sorted(map(tuple, a.bonds)) != sorted(map(tuple, b.bonds)):
            diffs.append("bonds")
    if a.bonds is not None and fmt == "pdb":
        if b.bonds is None or sorted(map(tuple, a.bonds[:, :2])) != sorted(map(tuple, b.bonds[:, :2])):
            diffs.append("bonds")
    if fmt == "mol2":
        num(a.atcharges.get("mol2charges"), b.atcharges.get("mol2charges"), "atcharges")
        if "attypes" in a.atffparams and list(a.atffparams["attypes"]) != list(b.atffparams.get("attypes", [])):
            diffs.append("attypes")
    if fmt == "pdb" and "attypes" in a.atffparams:
        for k in ("attypes", "restypes", "resnums"):
            if list(a.atffparams[k]) != list(b.atffparams.get(k, [])):
                diffs.append(k)
        for k in ("occupancies", "bfactors"):
            num(a.extra[k], b.extra.get(k), k, 6e-3)
        if "compound" in a.extra and b.extra.get("compound") != a.extra["compound"]:
            diffs.append("compound")
    if a.cube is not None:
        if b.cube is None:
            diffs.append("cube (lost)")
        else:
            num(a.cube.data, b.cube.data, "cube.data")
            num(a.cube.origin, b.cube.origin, "cube.origin", 1e-5)
            num(a.cube.axes, b.cube.axes, "cube.axes", 1e-5)
    if fmt == "cube":
        num(a.atcorenums, b.atcorenums, "atcorenums", 1e-5)
    if fmt == "fcidump":
        num(a.one_ints["core_mo"], b.one_ints.get("core_mo"), "one_ints")
        num(a.two_ints["two_mo"], b.two_ints.get("two_mo"), "two_ints")
        num(a.core_energy, b.core_energy, "core_energy")
    if fmt == "wfx" and a.lot is not None and b.lot != a.lot:
        diffs.append(f"lot ({a.lot!r} -> {b.lot!r})")
    if fmt == "json_qcschema":
        for k in ("charge", "nelec", "spinpol"):
            x, y = getattr(a, k), getattr(b, k)
            if x is not None and (y is None or abs(float(x) - float(y)) > 1e-9):
                diffs.append(f"{k} ({x} -> {y})")
        num(a.atcorenums, b.atcorenums, "atcorenums", 1e-12)
        num(a.atmasses, b.atmasses, "atmasses", 1e-9)
        num(a.energy, b.energy, "energy", 1e-12)
        num(a.atgradient, b.atgradient, "atgradient", 1e-12)
        for k in ("success", "stdout", "stderr"):
            va = (a.extra.get("output") or {}).get(k)
            if va is not None and (b.extra.get("output") or {}).get(k) != va:
                diffs.append(f"extra.output.{k} ({va!r} -> {(b.extra.get('output') or {}).get(k)!r})")
    if fmt in ("fchk", "molden", "molekel", "wfn", "wfx") and a.mo is not None:
        if b.mo is None:
            diffs.append("mo (lost)")
        else:
            t = {"fchk": 1e-7, "molden": 1e-5, "molekel": 1e-5, "wfn": 1e-7, "wfx": 1e-7}[fmt]
            if a.mo.kind != b.mo.kind and not (a.mo.kind == "restricted" and b.mo.kind == "unrestricted"):
                diffs.append("mo.kind")
            if a.mo.kind == b.mo.kind:
                if fmt in ("fchk", "molden", "molekel"):
                    cb = b.mo.coeffs
                    if a.obasis.conventions != b.obasis.conventions and a.obasis.nbasis == b.obasis.nbasis:
                        # the same functions under other ordering / sign conventions are the same data
                        perm, signs = convert_conventions(b.obasis, a.obasis.conventions)
                        cb = cb[perm] * signs[:, None]
                    num(a.mo.coeffs, cb, "mo.coeffs", t)
                num(a.mo.occs, b.mo.occs, "mo.occs", t)
                num(a.mo.energies, b.mo.energies, "mo.energies", 1e-5)
        if a.obasis is not None and b.obasis is not None and fmt in ("fchk", "molden", "molekel"):
            if [(s.icenter, s.angmoms.tolist(), s.kinds.tolist()) for s in a.obasis.shells] != [(s.icenter, s.angmoms.tolist(), s.kinds.tolist()) for s in b.obasis.shells]:
                diffs.append("obasis (shell structure)")
        if fmt == "fchk":
            num(a.energy, b.energy, "energy", 1e-8)
            num(a.atmasses, b.atmasses, "atmasses", 1e-5)
            for k in a.one_rdms:
                num(a.one_rdms[k], b.one_rdms.get(k), f"one_rdms[{k}]", 1e-7)
            for k in a.atcharges:
                num(a.atcharges[k], b.atcharges.get(k), f"atcharges[{k}]", 1e-7)
            if a.run_type is not None and b.run_type != a.run_type:
                diffs.append(f"run_type ({a.run_type} -> {b.run_type})")
            num(a.atgradient, b.atgradient, "atgradient", 1e-7)
            num(a.athessian, b.athessian, "athessian", 1e-7)
            for k in a.moments:
                num(a.moments[k], b.moments.get(k), f"moments[{k}]", 1e-7)
            if "polarizability_tensor" in a.extra:
                num(a.extra["polarizability_tensor"], b.extra.get("polarizability_tensor"), "polarizability_tensor", 1e-7)
            if a.atfrozen is not None and (b.atfrozen is None or list(a.atfrozen) != list(b.atfrozen)):
                diffs.append("atfrozen")
            for k in ("lot", "obasis_name"):
                if getattr(a, k) is not None and (getattr(b, k) or "").lower() != getattr(a, k).lower():
                    diffs.append(f"{k} ({getattr(a, k)!r} -> {getattr(b, k)!r})")
            if a.charge is not None and b.charge != a.charge:
                diffs.append("charge")
    return diffs


def digest(o):
    h = hashlib.sha256()

    def feed(x, depth=0):
        if isinstance(x, np.ndarray):
            h.update(x.dtype.str.encode())
            h.update(repr(x.shape).encode())
            h.update(np.ascontiguousarray(x).tobytes())
        elif isinstance(x, dict):
            for k in sorted(x, key=repr):
                h.update(repr(k).encode())
                feed(x[k], depth + 1)
        elif isinstance(x, (list, tuple)):
            for v in x:
                feed(v, depth + 1)
        elif hasattr(x, "__attrs_attrs__") and depth < 6:
            for a in x.__attrs_attrs__:
                h.update(a.name.encode())
                feed(getattr(x, a.name), depth + 1)
        else:
            h.update(repr(x).encode())

    feed(o)
    return h.hexdigest()


def first_diff(a, b):
    for at in a.__attrs_attrs__:
        x, y = getattr(a, at.name), getattr(b, at.name)
        if digest(x) != digest(y):
            return at.name
    return "?"


def cycle(fmt, label, obj, tol, check_c02=True, kw=None, cmp=None):
    kw = kw or {}
    cmp = cmp or compare
    f1 = os.path.join(tmp, f"g1.{fmt}")
    cases["c02"] += 1
    by_fmt["c02"][fmt] = by_fmt["c02"].get(fmt, 0) + 1
    try:
        dump_one(obj, f1, fmt=fmt, allow_changes=True, **kw)
    except (PrepareDumpError, DumpError) as exc:
        if check_c02:
            rec(c02, fmt, label, "an object with all required data was refused", repr(exc.__cause__ or exc), "refused")
        return
    try:
        g1 = load_one(f1, fmt=fmt, **kw)
    except Exception as exc:
        rec(c02, fmt, label, "iodata cannot read back what it wrote", repr(exc.__cause__ or exc), "unreadable")
        return
    if check_c02:
        for d in cmp(obj, g1, fmt, tol):
            rec(c02, fmt, label, "reloaded attribute differs: " + d, d, "attr." + d.split(" ")[0].split("[")[0])
    # C15: second and third generation
    cases["c15"] += 1
    by_fmt["c15"][fmt] = by_fmt["c15"].get(fmt, 0) + 1
    try:
        f2 = os.path.join(tmp, f"g2.{fmt}")
        dump_one(g1, f2, fmt=fmt, allow_changes=True, **kw)
        g2 = load_one(f2, fmt=fmt, **kw)
        f3 = os.path.join(tmp, f"g3.{fmt}")
        dump_one(g2, f3, fmt=fmt, allow_changes=True, **kw)
    except Exception as exc:
        rec(c15, fmt, label, "second cycle fails", repr(exc.__cause__ or exc), "cycle-fails")
        return
    if fmt == "json_qcschema":
        # the provenance trail grows by design; everything else must be stable
        for k in ("charge", "nelec", "spinpol"):
            if getattr(g1, k) != getattr(g2, k):
                rec(c15, fmt, label, f"object changes in the second cycle: {k}", f"{getattr(g1, k)} -> {getattr(g2, k)}", "object-drift." + k)
        for k in ("atnums", "atcoords", "atcorenums", "atmasses", "atgradient", "energy"):
            if digest(getattr(g1, k)) != digest(getattr(g2, k)):
                rec(c15, fmt, label, f"object changes in the second cycle: {k}", "", "object-drift." + k)
        return
    if digest(g1) != digest(g2):
        rec(c15, fmt, label, "object changes in the second cycle: " + first_diff(g1, g2), "", "object-drift." + first_diff(g1, g2))
    if open(f2, "rb").read() != open(f3, "rb").read():
        rec(c15, fmt, label, "file changes between the second and third save", "", "file-drift")


for fmt in ("xyz", "pdb", "mol2", "sdf", "poscar", "cube", "fcidump"):
    for label, obj, tol in objects_for(fmt):
        cycle(fmt, label, obj, tol)

# XYZ with user-defined atom columns (several keys of the same dictionary attribute, vectors, plain attributes)
from iodata.formats.xyz import DEFAULT_ATOM_COLUMNS  # noqa: E402


def _col(attr, key, shape, dtype=float, fmtspec="{:15.8f}"):
    return (attr, key, shape, dtype, dtype, (lambda v: fmtspec.format(v)))


COLUMN_SETS = {
    "one-dict-key": [*DEFAULT_ATOM_COLUMNS, _col("extra", "zs", (), int, "{:4d}")],
    "two-charge-kinds": [*DEFAULT_ATOM_COLUMNS, _col("atcharges", "mulliken", ()), _col("atcharges", "esp", ())],
    "three-charge-kinds+gradient": [DEFAULT_ATOM_COLUMNS[0], _col("atcharges", "a", ()), DEFAULT_ATOM_COLUMNS[1], _col("atgradient", None, (3,)), _col("atcharges", "b", ()), _col("atcharges", "c", ())],
    "two-extra-keys": [*DEFAULT_ATOM_COLUMNS, _col("extra", "u", (2,)), _col("extra", "w", (), int, "{:6d}")],
}


def compare_columns(cols):
    def cmp(a, b, fmt, tol):
        diffs = []
        for attr, key, _shape, dtype, _l, _d in cols:
            x, y = getattr(a, attr), getattr(b, attr)
            if key is not None:
                x, y = x[key], (y or {}).get(key)
            if y is None or np.shape(x) != np.shape(y) or not np.allclose(np.asarray(x, float), np.asarray(y, float), atol=1e-7 if attr != "atcoords" else 2e-10):
                diffs.append(attr + ("" if key is None else f"[{key}]"))
        return diffs

    return cmp


for name, cols in COLUMN_SETS.items():
    for n in (1, 5, 40):
        atnums, coords, _ = molecule(n)
        kw = dict(atnums=atnums, atcoords=coords, title="columns", atgradient=rng.normal(size=(n, 3)))
        kw["atcharges"] = {k: rng.normal(size=n) for k in ("mulliken", "esp", "a", "b", "c")}
        kw["extra"] = {"zs": rng.integers(0, 99, n), "u": rng.normal(size=(n, 2)), "w": rng.integers(-9, 9, n)}
        cycle("xyz", f"atom_columns={name},n={n}", IOData(**kw), 1e-7, kw={"atom_columns": cols}, cmp=compare_columns(cols))

# wavefunction formats and FCHK data: objects loaded from the corpus file of the same format
CORPUS = {
    "fchk": ["water_sto3g_hf_g03.fchk", "h_sto3g.fchk", "li_h_3-21G_hf_g09.fchk", "ch3_hf_sto3g.fchk", "peroxide_opt.fchk", "o2_cc_pvtz_cart.fchk", "nitrogen-cc.fchk"],
    "molden": ["h2o.molden.input", "nh3_molden_cart.molden", "nh3_molden_pure.molden", "he2_ghost_psi4_1.0.molden", "F.molden", "neon_turbomole_def2-qzvp.molden"],
    "molekel": ["h2_sto3g.mkl", "ethanol.mkl", "li2.mkl"],
    "wfn": ["h2o_sto3g.wfn", "he_s_orbital.wfn", "o2_uhf.wfn", "lif_fci.wfn", "li_sp_orbital.wfn"],
    "wfx": ["h2o_sto3g.wfx", "water_sto3g_hf.wfx", "h2_ub3lyp_ccpvtz.wfx", "lih_cation_uhf.wfx"],
    "json_qcschema": ["water_cluster_ghost.json", "LiCl_molecule.json", "CuSCN_molecule.json", "H2O_HF_STO3G_Gaussian_input.json", "LiCl_STO4G_Gaussian_output.json", "Hydroxyl_radical_molecule.json", "water_cluster.json", "water_full.json", "water_mp2_input.json", "CuSCN_molecule_extra.json", "LiCl_STO4G_Gaussian_input_extra.json", "H2O_CCSDprTpr_STO3G_output.json", "xtb_water_no_basis.json", "turbomole_water_energy_hf_output.json", "turbomole_water_gradient_rimp2_output.json", "LiCl_explicit_STO4G_input.json", "LiCl_string_STO4G_input.json"],
}
for fmt, files in CORPUS.items():
    for fn in files[: (100 if fmt == "json_qcschema" else 3 if tier == "quick" else 100)]:
        p = os.path.join(data_dir, fn)
        if not os.path.exists(p):
            continue
        try:
            obj = load_one(p, fmt=fmt)
        except Exception:
            continue
        cycle(fmt, fn, obj, 1e-6)
        if fmt == "json_qcschema" and obj.extra.get("schema_name") == "qcschema_output":
            # the documented fields of extra['output'] (success, stdout, stderr) must survive
            outp = load_one(p, fmt=fmt)
            outp.extra["output"].update(success=True, stdout="STDOUT TEXT", stderr="STDERR TEXT")
            outp.extra.get("input", {}).get("unparsed", {}).pop("success", None)
            cycle(fmt, fn + "+stdout,stderr,success", outp, 1e-9)
        if fmt == "wfx":
            named = load_one(p, fmt=fmt)
            named.lot = "rhf"  # written to <Model>
            cycle(fmt, fn + "+lot", named, 1e-6)
        if fmt == "fchk":
            # every optional section the FCHK writer recognises, filled with asymmetric data
            n = obj.natom
            for run_type, lot in (("energy", "hf"), ("opt", "mp2"), ("scan", "ccsd"), ("freq", "b3lyp")):
                rich = load_one(p, fmt=fmt)
                rich.run_type, rich.lot, rich.obasis_name = run_type, lot, "my-basis"
                h = rng.normal(size=(3 * n, 3 * n))
                rich.athessian = h + h.T
                rich.atgradient = rng.normal(size=(n, 3))
                rich.atfrozen = np.arange(n) % 2 == 0
                rich.atmasses = rng.uniform(1, 30, n) * 1822.888
                rich.moments = {(1, "c"): rng.normal(size=3), (2, "c"): rng.normal(size=6)}
                pol = rng.normal(size=(3, 3))
                rich.extra = {"polarizability_tensor": pol + pol.T}
                rich.atcharges = {k: rng.normal(size=n) for k in ("mulliken", "esp", "npa", "mbs", "hirshfeld", "cm5")}
                nb = rich.obasis.nbasis if rich.obasis is not None else 0
                if nb:
                    rdms = {}
                    for k in ("scf", "scf_spin") + (("post_scf_ao", "post_scf_spin_ao") if lot in ("mp2", "ccsd") else ()):
                        m = rng.normal(size=(nb, nb))
                        rdms[k] = m + m.T
                    rich.one_rdms = rdms
                cycle(fmt, f"{fn}+all-optional-sections,run_type={run_type}", rich, 1e-6)
            tiny = load_one(p, fmt=fmt)
            tiny.atgradient = np.full((obj.natom, 3), 1.0)
            tiny.atgradient[0, 1], tiny.atgradient[-1, 2] = -2.5e-100, -6.0e-120
            cycle(fmt, f"{fn}+values-below-1e-99", tiny, 1e-6)

# every corpus file converted to every format that accepts it (C15 only)
allfiles = sorted(glob.glob(os.path.join(data_dir, "*")), key=os.path.getsize)
nconv = 0
for p in allfiles:
    if not os.path.isfile(p) or os.path.getsize(p) > (60000 if tier == "quick" else 2000000):
        continue
    try:
        obj = load_one(p)
    except Exception:
        continue
    if obj.title is not None and "\n" in obj.title.strip():
        continue  # single-line titles only (the documented domain of the text formats)
    if obj.mo is not None and obj.nelec is not None and obj.nelec < 0.5:
        continue  # wavefunctions with at least one electron
    for fmt, mod in FORMAT_MODULES.items():
        if hasattr(mod, "dump_one") and hasattr(mod, "load_one") and fmt != "json_qcschema":
            if all(getattr(obj, a) is not None for a in mod.dump_one.required):
                cycle(fmt, os.path.basename(p), obj, 1e-6, check_c02=False)
                nconv += 1
    if tier == "quick" and nconv > 120:
        break

# C02: objects that carry exactly the required data are written rather than refused
for fmt, mod in sorted(FORMAT_MODULES.items()):
    if not (hasattr(mod, "dump_one") and hasattr(mod, "load_one")):
        continue
    req = set(mod.dump_one.required)
    atnums, coords, bonds = molecule(3)
    full = dict(atnums=atnums, atcoords=coords, cellvecs=np.eye(3) * 10, title="t", atcorenums=atnums.astype(float))
    kw = {k: v for k, v in full.items() if k in req}
    if req - set(kw):
        continue  # formats that need a wavefunction / integrals are exercised above
    cases["c02"] += 1
    try:
        dump_one(IOData(**kw), os.path.join(tmp, f"req.{fmt}"), fmt=fmt)
        load_one(os.path.join(tmp, f"req.{fmt}"), fmt=fmt)
    except Exception as exc:
        rec(c02, fmt, "required-only", "an object with exactly the documented required attributes cannot be saved and reloaded", repr(exc.__cause__ or exc), "required-only")

print(json.dumps({"c02": c02, "c15": c15, "cases": cases, "cases_by_format": by_fmt}, default=str))
