"""Record-level readers against independent writers that follow the published layouts.

usage: /venv/bin/python layout_probe.py <seed> <quick|thorough> [group]
Each group enumerates the width classes of every field (incl. the classes where neighbouring fields touch) with
sampled digits, writes a file by the published layout, loads it with the real reader and compares."""

import io
import itertools
import json
import os
import sys
import tempfile
import warnings

import numpy as np

warnings.simplefilter("ignore")
from iodata import load_many, load_one  # noqa: E402
from iodata.utils import LineIterator, LoadError  # noqa: E402

seed = int(sys.argv[1]) if len(sys.argv) > 1 else 0
tier = sys.argv[2] if len(sys.argv) > 2 else "quick"
only = sys.argv[3] if len(sys.argv) > 3 else None
rng = np.random.default_rng(seed)
tmp = tempfile.mkdtemp()
__import__("atexit").register(__import__("shutil").rmtree, tmp, True)
ANG = 1.8897261246257702
NM = 18.897261246257702
groups = {}


def group(name, bound):
    groups[name] = {"bound": bound, "cases": 0, "fails": []}
    return groups[name]


def want(name):
    return only is None or only == name


def check(g, desc, ok, detail=""):
    g["cases"] += 1
    if not ok and len(g["fails"]) < 6:
        g["fails"].append({"case": desc, "detail": str(detail)[:300]})


SYM = {1: "H", 6: "C", 7: "N", 8: "O", 17: "Cl", 35: "Br"}

# ---------------------------------------------------------------------------------------------- SDF (MDL V2000)
if want("sdf"):
    g = group("sdf", "MDL V2000 molfile: counts line aaabbb.., atom block xxxxx.xxxxyyyyy.yyyyzzzzz.zzzz aaa, bond block 111222ttt; atom counts 1,9,10,99 and coordinates up to +-9999.9999 (touching fields)")
    for natom, wide in itertools.product([1, 9, 10, 99], [False, True]):
        atnums = rng.choice(list(SYM), size=natom)
        coords = rng.uniform(-9, 9, size=(natom, 3)).round(4)
        if wide:
            coords[0] = [-1234.5678, 9876.5432, -9999.9999]
        bonds = [(i, i + 1, 1 + i % 3) for i in range(natom - 1)]
        lines = ["title", "  prog", "", f"{natom:3d}{len(bonds):3d}  0  0  0  0  0  0  0  0999 V2000"]
        for z, (x, y, zz) in zip(atnums, coords):
            lines.append(f"{x:10.4f}{y:10.4f}{zz:10.4f} {SYM[int(z)]:<3s} 0  0  0  0  0  0  0  0  0  0  0  0")
        for a, b, t in bonds:
            lines.append(f"{a + 1:3d}{b + 1:3d}{t:3d}  0  0  0  0")
        lines += ["M  END", "$$$$"]
        fn = os.path.join(tmp, "t.sdf")
        open(fn, "w").write("\n".join(lines) + "\n")
        try:
            d = load_one(fn)
            ok = np.array_equal(d.atnums, atnums) and np.allclose(d.atcoords, coords * ANG, atol=1e-6) and (not bonds or np.array_equal(d.bonds, np.array(bonds)))
            check(g, f"natom={natom} wide={wide}", ok, "values differ")
        except Exception as exc:
            check(g, f"natom={natom} wide={wide}", False, repr(exc))
    g2 = group("sdf-large", "MDL V2000 with >= 100 atoms / bonds (three-character counters fill their columns and touch)")
    for natom in (100, 120):
        atnums = rng.choice(list(SYM), size=natom)
        coords = rng.uniform(-9, 9, size=(natom, 3)).round(4)
        bonds = [(i, i + 1, 1) for i in range(natom - 1)]
        lines = ["title", "  prog", "", f"{natom:3d}{len(bonds):3d}  0  0  0  0  0  0  0  0999 V2000"]
        for z, (x, y, zz) in zip(atnums, coords):
            lines.append(f"{x:10.4f}{y:10.4f}{zz:10.4f} {SYM[int(z)]:<3s} 0  0  0  0  0  0  0  0  0  0  0  0")
        for a, b, t in bonds:
            lines.append(f"{a + 1:3d}{b + 1:3d}{t:3d}  0  0  0  0")
        lines += ["M  END", "$$$$"]
        fn = os.path.join(tmp, "t.sdf")
        open(fn, "w").write("\n".join(lines) + "\n")
        try:
            d = load_one(fn)
            ok = np.array_equal(d.atnums, atnums) and np.array_equal(d.bonds, np.array(bonds))
            check(g2, f"natom={natom}", ok, f"bonds[98:101]={d.bonds[98:101].tolist() if d.bonds is not None and len(d.bonds) > 100 else d.bonds.shape}")
        except Exception as exc:
            check(g2, f"natom={natom}", False, repr(exc))

# ---------------------------------------------------------------------------------------------- PDB v3.3
if want("pdb"):
    g = group("pdb", "PDB v3.3 ATOM/HETATM + CONECT: serial numbers up to 99999, residue numbers up to 9999, coordinates -999.999 .. 9999.999 (adjacent 8-column fields touch), CONECT serials >= 10000")
    for natom, wide in itertools.product([3, 1001, 10003] if tier == "thorough" else [3, 1001], [False, True]):
        atnums = rng.choice(list(SYM), size=natom)
        coords = rng.uniform(-99, 99, size=(natom, 3)).round(3)
        if wide:
            coords[0] = [-999.999, 9999.999, -123.456]
            coords[1] = [1234.567, -999.999, 9999.999]
        lines = ["TITLE     test"]
        for i, (z, (x, y, zz)) in enumerate(zip(atnums, coords)):
            serial = (i + 1) % 100000
            lines.append(f"ATOM  {serial:5d} {SYM[int(z)]:<4s} XXX A{(i % 9999) + 1:4d}    {x:8.3f}{y:8.3f}{zz:8.3f}{1.0:6.2f}{20.0:6.2f}          {SYM[int(z)]:>2s}")
        bonds = [(0, 1), (1, 2)]
        if natom > 10000:
            bonds += [(10000, 10001), (9999, 10002)]
        conn = {}
        for a, b in bonds:
            conn.setdefault(a, []).append(b)
            conn.setdefault(b, []).append(a)
        for a in sorted(conn):
            lines.append("CONECT" + f"{a + 1:5d}" + "".join(f"{b + 1:5d}" for b in conn[a]))
        lines.append("END")
        fn = os.path.join(tmp, "t.pdb")
        open(fn, "w").write("\n".join(lines) + "\n")
        try:
            d = load_one(fn)
            ok = np.array_equal(d.atnums, atnums) and np.allclose(d.atcoords, coords * ANG, atol=1e-6)
            got = sorted((int(a), int(b)) for a, b in d.bonds[:, :2]) if d.bonds is not None else []
            ok = ok and got == sorted(bonds)
            check(g, f"natom={natom} wide={wide}", ok, f"bonds={got[:6]} expected={sorted(bonds)}")
        except Exception as exc:
            check(g, f"natom={natom} wide={wide}", False, repr(exc))

    # serial numbers are not atom counts: a TER record takes a serial (wwPDB 3.3), so CONECT serials after it are
    # one higher than the position of the atom
    g4 = group("pdb-ter", "PDB v3.3 file with a TER record between a chain and a HETATM water; CONECT records refer to serial numbers")
    lines = ["TITLE     ter", "ATOM      1 N    ALA A   1       0.000   0.000   0.000  1.00 20.00           N", "ATOM      2 CA   ALA A   1       1.450   0.000   0.000  1.00 20.00           C", "ATOM      3 C    ALA A   1       2.000   1.400   0.000  1.00 20.00           C", "TER       4      ALA A   1", "HETATM    5 O    HOH A   2       5.000   5.000   5.000  1.00 20.00           O", "HETATM    6 H1   HOH A   2       5.900   5.000   5.000  1.00 20.00           H", "HETATM    7 H2   HOH A   2       4.700   5.900   5.000  1.00 20.00           H", "CONECT    5    6    7", "CONECT    6    5", "CONECT    7    5", "END"]
    fn = os.path.join(tmp, "ter.pdb")
    open(fn, "w").write("\n".join(lines) + "\n")
    try:
        d = load_one(fn)
        got = sorted({tuple(sorted((int(a), int(b)))) for a, b in d.bonds[:, :2]}) if d.bonds is not None else []
        check(g4, "water O-H bonds after a TER record", list(d.atnums) == [7, 6, 6, 8, 1, 1] and got == [(3, 4), (3, 5)], f"atoms {list(map(int, d.atnums))}; bonds (atom indices) {got}, expected [(3, 4), (3, 5)]")
    except Exception as exc:
        check(g4, "water O-H bonds after a TER record", False, repr(exc))

# ---------------------------------------------------------------------------------------------- GRO (Gromos87)
if want("gro"):
    def gro_file(pos, vel, box):
        lines = ["title, t= 1.5", f"{len(pos):5d}"]
        for i, (p, v) in enumerate(zip(pos, vel)):
            lines.append(f"{(i % 99999) + 1:5d}{'RES':<5s}{'X' + str(i % 999):>5s}{(i % 99999) + 1:5d}{p[0]:8.3f}{p[1]:8.3f}{p[2]:8.3f}{v[0]:8.4f}{v[1]:8.4f}{v[2]:8.4f}")
        lines.append("".join(f"{b:10.5f}" for b in box))
        return "\n".join(lines) + "\n"

    g = group("gro", "Gromos87 %5d%-5s%5s%5d%8.3f%8.3f%8.3f%8.4f%8.4f%8.4f: positions within (-10, 100) nm")
    pos = rng.uniform(-9.9, 99.9, size=(12, 3)).round(3)
    vel = rng.uniform(-9, 9, size=(12, 3)).round(4)
    fn = os.path.join(tmp, "t.gro")
    open(fn, "w").write(gro_file(pos, vel, [3.0, 4.0, 5.0]))
    try:
        d = load_one(fn)
        check(g, "ordinary ranges", np.allclose(d.atcoords, pos * NM, rtol=1e-6) and np.allclose(np.diag(d.cellvecs), np.array([3.0, 4.0, 5.0]) * NM, rtol=1e-6), "values differ")
    except Exception as exc:
        check(g, "ordinary ranges", False, repr(exc))
    # triclinic box: nine numbers in the order v1(x) v2(y) v3(z) v1(y) v1(z) v2(x) v2(z) v3(x) v3(y) (GROMACS manual);
    # cellvecs holds one vector per row
    g3 = group("gro-triclinic", "Gromos87 box line with nine numbers (triclinic cell)")
    open(fn, "w").write(gro_file(pos, vel, [5.0, 6.0, 7.0, 0.0, 0.0, 1.0, 0.0, 2.0, 3.0]))
    try:
        d = load_one(fn)
        want_cell = np.array([[5.0, 0.0, 0.0], [1.0, 6.0, 0.0], [2.0, 3.0, 7.0]]) * NM
        check(g3, "v1=(5,0,0) v2=(1,6,0) v3=(2,3,7) nm", np.allclose(d.cellvecs, want_cell, rtol=1e-6, atol=1e-9), f"loaded rows (nm): {(d.cellvecs / NM).round(3).tolist()}")
    except Exception as exc:
        check(g3, "triclinic box", False, repr(exc))
    g2 = group("gro-wide", "Gromos87 with x <= -10 nm or >= 100 nm (the 8-column x field uses its first two columns)")
    for x0 in (-12.345, 123.456, -100.001):
        pos2 = pos.copy()
        pos2[3, 0] = x0
        open(fn, "w").write(gro_file(pos2, vel, [3.0, 4.0, 5.0]))
        try:
            d = load_one(fn)
            check(g2, f"x={x0}", np.allclose(d.atcoords, pos2 * NM, rtol=1e-6), f"loaded x = {d.atcoords[3, 0] / NM:.3f} nm")
        except Exception as exc:
            check(g2, f"x={x0}", False, repr(exc))

# ---------------------------------------------------------------------------------------------- MOL2 (Tripos)
if want("mol2"):
    g = group("mol2", "Tripos MOL2 ATOM records `id name x y z type subst_id subst_name charge [status_bit]`, BOND records `id a b type`; with and without the optional status bit")
    for status in (False, True):
        charges = [-0.834, 0.417, 0.417, 0.1]
        names, types, z = ["O1", "H1", "H2", "C1"], ["O.3", "H", "H", "C.3"], [8, 1, 1, 6]
        xyz = rng.uniform(-5, 5, size=(4, 3)).round(4)
        lines = ["@<TRIPOS>MOLECULE", "probe", "    4     3     1     0     0", "SMALL", "USER_CHARGES", "", "@<TRIPOS>ATOM"]
        for i in range(4):
            st = (" WATER" if i < 2 else "") if status else ""
            lines.append(f"{i + 1:7d} {names[i]:<8s}{xyz[i, 0]:10.4f}{xyz[i, 1]:10.4f}{xyz[i, 2]:10.4f} {types[i]:<6s}{1:5d} RES1   {charges[i]:10.4f}{st}")
        lines += ["@<TRIPOS>BOND", "     1     1     2 1", "     2     1     3 1", "     3     1     4 ar"]
        fn = os.path.join(tmp, "t.mol2")
        open(fn, "w").write("\n".join(lines) + "\n")
        try:
            d = load_one(fn)
            ok = list(d.atnums) == z and np.allclose(d.atcoords, xyz * ANG, atol=1e-6) and np.allclose(d.atcharges["mol2charges"], charges) and list(d.atffparams["attypes"]) == types and [tuple(b[:2]) for b in d.bonds] == [(0, 1), (0, 2), (0, 3)]
            check(g, f"status bit column present on some atoms: {status}", ok, f"charges {d.atcharges['mol2charges'].tolist()} expected {charges}; atnums {d.atnums.tolist()}")
        except Exception as exc:
            check(g, f"status bit: {status}", False, repr(exc))

# ---------------------------------------------------------------------------------------------- XYZ
if want("xyz"):
    g = group("xyz", "XYZ: count, title, symbol + three free-format numbers (incl. negative, wide, Fortran-free)")
    for natom in (1, 2, 100, 1000):
        atnums = rng.choice(list(SYM), size=natom)
        coords = rng.uniform(-999, 999, size=(natom, 3)).round(6)
        text = f"{natom}\nsome title\n" + "".join(f"{SYM[int(z)]} {x:.6f} {y:.6f} {zz:.6f}\n" for z, (x, y, zz) in zip(atnums, coords))
        fn = os.path.join(tmp, "t.xyz")
        open(fn, "w").write(text)
        try:
            d = load_one(fn)
            check(g, f"natom={natom}", np.array_equal(d.atnums, atnums) and np.allclose(d.atcoords, coords * ANG, rtol=1e-9) and d.title == "some title")
        except Exception as exc:
            check(g, f"natom={natom}", False, repr(exc))

# ---------------------------------------------------------------------------------------------- Gaussian cube
if want("cube"):
    g = group("cube", "Gaussian cube: 6 values per line, a new line after every innermost (z) run, ragged last lines, skewed non-cubic grids, negative wide numbers")
    for shape, skew in itertools.product([(2, 2, 2), (2, 3, 7), (3, 1, 6), (1, 5, 13)], [False, True]):
        n1, n2, n3 = shape
        origin = np.array([-1.5, 0.25, 3.0])
        axes = np.diag([0.2, 0.3, 0.4])
        if skew:
            axes = axes + np.array([[0, 0.05, 0], [0, 0, 0.07], [0.03, 0, 0]])
        data = rng.normal(size=shape) * 10.0 ** int(rng.integers(-3, 4))
        atnums, cor, xyz = [8, 1], [8.0, 1.0], np.array([[0.0, 0.0, 0.1], [0.0, 1.4, -0.9]])
        lines = ["title line", "second line", f"{len(atnums):5d}{origin[0]:12.6f}{origin[1]:12.6f}{origin[2]:12.6f}"]
        for n, ax in zip(shape, axes):
            lines.append(f"{n:5d}{ax[0]:12.6f}{ax[1]:12.6f}{ax[2]:12.6f}")
        for z, q, r in zip(atnums, cor, xyz):
            lines.append(f"{z:5d}{q:12.6f}{r[0]:12.6f}{r[1]:12.6f}{r[2]:12.6f}")
        for i in range(n1):
            for j in range(n2):
                row = [f"{data[i, j, k]:13.5E}" for k in range(n3)]
                for s in range(0, n3, 6):
                    lines.append("".join(row[s : s + 6]))
        fn = os.path.join(tmp, "t.cube")
        open(fn, "w").write("\n".join(lines) + "\n")
        try:
            d = load_one(fn)
            ok = np.allclose(d.cube.data, data, rtol=2e-5) and np.allclose(d.cube.origin, origin) and np.allclose(d.cube.axes, axes) and np.allclose(d.cellvecs, axes * np.array(shape)[:, None]) and np.array_equal(d.atnums, atnums) and np.allclose(d.atcoords, xyz)
            check(g, f"shape={shape} skew={skew}", ok, "values differ")
        except Exception as exc:
            check(g, f"shape={shape} skew={skew}", False, repr(exc))

# ---------------------------------------------------------------------------------------------- Gaussian log matrices
if want("gaussianlog"):
    from iodata.formats.gaussianlog import _load_twoindex_g09

    g = group("gaussianlog", "Gaussian log lower-triangular matrix print-out in blocks of 5 columns, D exponents; NBasis 1..11 incl. multiples of 5; the line after the matrix must still be there")

    def g09_matrix(mat):
        n = len(mat)
        out = []
        for b in range(0, n, 5):
            out.append("".join(f"{c + 1:14d}" for c in range(b, min(b + 5, n))))
            for r in range(b, n):
                vals = "".join(f"{mat[r, c]:14.6E}".replace("E", "D") for c in range(b, min(b + 5, r + 1)))
                out.append(f"{r + 1:7d}{vals}")
        return out

    for n in range(1, 12):
        a = rng.normal(size=(n, n))
        mat = (a + a.T) / 2
        lines = g09_matrix(mat) + [" *** Kinetic Energy ***", "next line"]
        fn = os.path.join(tmp, "mat.txt")
        open(fn, "w").write("\n".join(lines) + "\n")
        try:
            with LineIterator(fn) as lit:
                got = _load_twoindex_g09(lit, n)
                nxt = next(lit).strip()
            check(g, f"nbasis={n}", np.allclose(got, mat, rtol=2e-6, atol=1e-12) and nxt == "*** Kinetic Energy ***", f"next line after the matrix: {nxt!r}")
        except Exception as exc:
            check(g, f"nbasis={n}", False, repr(exc))

# ---------------------------------------------------------------------------------------------- FCIDUMP
if want("fcidump"):
    g = group("fcidump", "Molpro FCIDUMP: chemists' notation (ij|kl), one-based indices, core energy; n = 1..4 orbitals")
    for n in (1, 2, 3, 4):
        a = rng.normal(size=(n, n))
        one = (a + a.T) / 2
        two = np.zeros((n, n, n, n))
        lines = [f" &FCI NORB={n},NELEC=2,MS2=0,", "  ORBSYM=" + ",".join("1" for _ in range(n)) + ",", "  ISYM=1", " &END"]
        for i, j, k, l in itertools.product(range(n), repeat=4):
            if i >= j and k >= l and (i * (i + 1) // 2 + j) >= (k * (k + 1) // 2 + l):
                v = float(rng.normal())
                for p, q, r, s in {(i, j, k, l), (j, i, k, l), (i, j, l, k), (j, i, l, k), (k, l, i, j), (l, k, i, j), (k, l, j, i), (l, k, j, i)}:
                    two[p, r, q, s] = v  # physicists' <pr|qs> = chemists' (pq|rs)
                lines.append(f"{v:23.16E}{i + 1:4d}{j + 1:4d}{k + 1:4d}{l + 1:4d}")
        for i in range(n):
            for j in range(i + 1):
                lines.append(f"{one[i, j]:23.16E}{i + 1:4d}{j + 1:4d}   0   0")
        lines.append(f"{1.25:23.16E}   0   0   0   0")
        fn = os.path.join(tmp, "FCIDUMP.t")
        open(fn, "w").write("\n".join(lines) + "\n")
        try:
            d = load_one(fn, fmt="fcidump")
            ok = np.allclose(d.one_ints["core_mo"], one) and np.allclose(d.two_ints["two_mo"], two) and abs(d.core_energy - 1.25) < 1e-12
            check(g, f"norb={n}", ok, "integrals differ")
        except Exception as exc:
            check(g, f"norb={n}", False, repr(exc))

# ---------------------------------------------------------------------------------------------- extended XYZ
if want("extxyz"):
    g = group("extxyz", "extended XYZ: Properties=species:S:1:pos:R:3[:Z:I:1]; every sequence of 3 loads over the two layouts in one process: each file must load to what its own text says (element from Z when present, species kept as labels)")

    def ext(layout, n):
        out = [str(n)]
        if layout == "species":
            out.append('Properties=species:S:1:pos:R:3 title="t"')
            out += [f"{['H', 'O', 'C'][i % 3]} {i * 1.0:.4f} {0.5 * i:.4f} {-0.25 * i:.4f}" for i in range(n)]
        else:
            out.append('Properties=species:S:1:pos:R:3:Z:I:1 title="t"')
            out += [f"{['Xa', 'Xb', 'Xc'][i % 3]} {i * 1.0:.4f} {0.5 * i:.4f} {-0.25 * i:.4f} {[1, 8, 6][i % 3]}" for i in range(n)]
        return "\n".join(out) + "\n"

    for order in itertools.product(("species", "both"), repeat=3):
        for k, layout in enumerate(order):
            n = 1 + (k + len(order[0])) % 4
            fn = os.path.join(tmp, "seq.xyz")
            open(fn, "w").write(ext(layout, n))
            try:
                d = load_one(fn, fmt="extxyz")
                want_sp = None if layout == "species" else [["Xa", "Xb", "Xc"][i % 3] for i in range(n)]
                have_sp = None if "species" not in d.extra else list(d.extra["species"])
                ok = list(d.atnums) == [[1, 8, 6][i % 3] for i in range(n)] and have_sp == want_sp and np.allclose(d.atcoords[:, 0], np.arange(n) * ANG, atol=1e-6)
                check(g, f"loads {order}, load number {k + 1}", ok, f"atnums {list(map(int, d.atnums))} species {have_sp} expected species {want_sp}")
            except Exception as exc:
                check(g, f"loads {order}, load number {k + 1}", False, repr(exc))

# ---------------------------------------------------------------------------------------------- Molden [GTO] blocks
if want("molden-gto"):
    g = group("molden-gto", "Molden [GTO] section written by an independent writer: one block per atom headed by the atom's sequence number; blocks in ascending, descending and shuffled order and with an atom that has no functions; the orbitals loaded must be the functions of space the file denotes (independent evaluator)")
    sys.path.insert(0, os.path.dirname(os.path.abspath(__file__)))
    import overlap_oracle as oo
    from iodata.basis import MolecularBasis, Shell
    from iodata.formats.molden import CONVENTIONS as MCONV
    from iodata.overlap import compute_overlap

    def molden_values(obasis, atcoords, coeffs, pts):
        rows = []
        for sh in obasis.shells:
            r = pts - np.asarray(atcoords)[sh.icenter]
            r2 = (r**2).sum(axis=1)
            l = int(sh.angmoms[0])
            for a_, b_, c_ in oo.cart_powers(l):
                v = np.zeros(len(pts))
                for al, ck in zip(sh.exponents, sh.coeffs[:, 0]):
                    v += ck * oo.norm_cart(al, (a_, b_, c_)) * r[:, 0] ** a_ * r[:, 1] ** b_ * r[:, 2] ** c_ * np.exp(-al * r2)
                rows.append(v)
        return coeffs.T @ np.array(rows)

    for case, order in enumerate([[0, 1, 2], [2, 1, 0], [1, 2, 0], [2, 0], [1, 2]]):
        coords = np.array([[0.0, 0.0, 0.0], [1.6, 0.3, -0.2], [-0.4, 1.9, 0.7]]) + rng.normal(size=(3, 3)) * 0.1
        atn = [8, 1, 6]
        per_atom = {0: [(0, [5.0, 1.2], [0.4, 0.7]), (1, [0.9], [1.0])], 1: [(0, [0.8], [1.0])], 2: [(0, [3.1, 0.6], [0.5, 0.6]), (1, [1.4], [1.0]), (0, [0.25], [1.0])]}
        shells = [Shell(ia, [l], ["c"], np.array(ex), np.array(co).reshape(-1, 1)) for ia in order for (l, ex, co) in per_atom[ia]]
        ob = MolecularBasis(shells, MCONV, "L2")
        S = compute_overlap(ob, coords)
        w, v = np.linalg.eigh(S)
        q, _ = np.linalg.qr(rng.normal(size=(ob.nbasis, ob.nbasis)))
        C = (v / np.sqrt(w)) @ v.T @ q
        lines = ["[Molden Format]", "[Atoms] AU"]
        for i, (z, xyz) in enumerate(zip(atn, coords)):
            lines.append(f"{SYM[z]:2s} {i + 1:3d} {z:3d}  {xyz[0]:20.12f} {xyz[1]:20.12f} {xyz[2]:20.12f}")
        lines.append("[GTO]")
        for ia in order:
            lines.append(f"{ia + 1:3d} 0")
            for l, ex, co in per_atom[ia]:
                lines.append(f" {'sp'[l]}  {len(ex):3d} 1.00")
                lines += [f"{e_:20.10f} {c_:20.10f}" for e_, c_ in zip(ex, co)]
            lines.append("")
        lines.append("[MO]")
        for j in range(ob.nbasis):
            lines += [f" Ene= {-1.0 + 0.1 * j:.10f}", " Spin= Alpha", f" Occup= {2.0 if j < 2 else 0.0:.6f}"]
            lines += [f"{i + 1:4d} {C[i, j]:.14e}" for i in range(ob.nbasis)]
        fn = os.path.join(tmp, "order.molden")
        open(fn, "w").write("\n".join(lines) + "\n")
        pts = rng.uniform(-2, 3, size=(8, 3))
        try:
            import warnings

            with warnings.catch_warnings():
                warnings.simplefilter("ignore")
                d = load_one(fn, fmt="molden")
            got = molden_values(d.obasis, d.atcoords, d.mo.coeffs, pts)
            want_v = molden_values(ob, coords, C, pts)
            centers = [int(sh.icenter) for sh in d.obasis.shells]
            check(g, f"[GTO] blocks for atoms {[o + 1 for o in order]}", np.abs(got - want_v).max() < 1e-6 and centers == [ia for ia in order for _ in per_atom[ia]], f"shell centres loaded: {centers}; max deviation of orbital values {np.abs(got - want_v).max():.3e}")
        except Exception as exc:
            check(g, f"[GTO] blocks for atoms {[o + 1 for o in order]}", False, repr(exc))

# ---------------------------------------------------------------------------------------------- WFX gradient records
if want("wfx-gradients"):
    g = group("wfx-gradients", "AIMPAC WFX <Nuclear Cartesian Energy Gradients>: one record 'name gx gy gz' per nucleus, attached by name; every order of the records (all permutations, 3 nuclei) with distinct values, on the repository's own WFX fixture with the section rewritten")
    import iodata as _iod

    src = os.path.join(os.path.dirname(_iod.__file__), "test", "data", "water_sto3g_hf.wfx")
    text = open(src).read()
    head, rest = text.split("<Nuclear Cartesian Energy Gradients>\n")
    body, after = rest.split("</Nuclear Cartesian Energy Gradients>")
    names = [ln.split()[0] for ln in body.strip().splitlines()]
    vals = {nm: [round(float(k + 1) + 0.1 * c, 3) for c in range(3)] for k, nm in enumerate(names)}
    for order in itertools.permutations(range(len(names))):
        recs = "".join(f"{names[k]}         {vals[names[k]][0]:.14E} {vals[names[k]][1]:.14E} {vals[names[k]][2]:.14E}\n" for k in order)
        fn = os.path.join(tmp, "perm.wfx")
        with open(fn, "w") as fh:
            fh.write(head + "<Nuclear Cartesian Energy Gradients>\n" + recs + "</Nuclear Cartesian Energy Gradients>" + after)
        desc = f"gradient records in the order {[names[k] for k in order]}"
        try:
            with warnings.catch_warnings():
                warnings.simplefilter("ignore")
                d = load_one(fn, fmt="wfx")
            want_g = np.array([vals[nm] for nm in names])
            check(g, desc, d.atgradient.shape == want_g.shape and np.allclose(d.atgradient, want_g, atol=1e-12), f"loaded rows {d.atgradient.tolist()} for nuclei {names}; the records say {vals}")
        except Exception as exc:
            check(g, desc, False, repr(exc))

print(json.dumps({"groups": groups}))
