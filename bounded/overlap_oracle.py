"""Independent oracle for overlap matrices, written from docs/basis.rst (not from iodata/overlap.py):
Cartesian functions N x^a y^b z^c exp(-alpha r^2), pure functions from the associated-Legendre definition of the
real regular solid harmonics, L2-normalised primitives, contraction = linear combination of primitives."""

import math
from functools import lru_cache

import numpy as np


def fact2(n):
    return 1 if n <= 0 else n * fact2(n - 2)


def cart_powers(l):
    """alphabetical order: xx, xy, xz, yy, yz, zz"""
    return [(a, b, l - a - b) for a in range(l, -1, -1) for b in range(l - a, -1, -1)]


def _pmul(p, q):
    out = {}
    for (a, b, c), u in p.items():
        for (d, e, f), v in q.items():
            k = (a + d, b + e, c + f)
            out[k] = out.get(k, 0.0) + u * v
    return out


def _ppow(p, n):
    out = {(0, 0, 0): 1.0}
    for _ in range(n):
        out = _pmul(out, p)
    return out


@lru_cache(maxsize=None)
def solid_harmonics(l):
    """Rows: c0, c1, s1, ..., cl, sl as dicts {(a,b,c): coefficient} of C_lm / S_lm (definition of docs/basis.rst):
    C_lm = sqrt(2 (l-m)!/(l+m)!) Re[(x+iy)^m] r^(l-m) P_l^(m)(z/r),   C_l0 = r^l P_l(z/r)
    ((-1)^m P_l^m(t) = (1-t^2)^(m/2) d^m P_l/dt^m: the Condon-Shortley phase is cancelled as the docs say)."""
    from numpy.polynomial import Polynomial
    from numpy.polynomial.legendre import Legendre

    r2 = {(2, 0, 0): 1.0, (0, 2, 0): 1.0, (0, 0, 2): 1.0}
    rows = []
    for m in range(l + 1):
        dP = Legendre.basis(l).deriv(m).convert(kind=Polynomial).coef if m <= l else [0.0]
        poly = {}
        for k, ck in enumerate(dP):
            if abs(ck) < 1e-12:
                continue
            assert (l - m - k) % 2 == 0
            term = _pmul({(0, 0, k): float(ck)}, _ppow(r2, (l - m - k) // 2))
            for key, v in term.items():
                poly[key] = poly.get(key, 0.0) + v
        # (x + i y)^m = sum_j C(m,j) x^(m-j) (i y)^j
        re, im = {}, {}
        for j in range(m + 1):
            c = math.comb(m, j)
            tgt = re if j % 2 == 0 else im
            sign = [1, 1, -1, -1][j % 4]
            tgt[(m - j, j, 0)] = tgt.get((m - j, j, 0), 0.0) + sign * c
        norm = 1.0 if m == 0 else math.sqrt(2.0 * math.factorial(l - m) / math.factorial(l + m))
        for part in ([re] if m == 0 else [re, im]):
            d = {k: norm * v for k, v in _pmul(part, poly).items() if abs(v) > 1e-13}
            rows.append(d)
    return rows


@lru_cache(maxsize=None)
def tf_matrix(l):
    """Normalised pure functions expressed in normalised Cartesian functions (same exponent), rows c0,c1,s1,..."""
    powers = cart_powers(l)
    rows = solid_harmonics(l)
    tf = np.zeros((len(rows), len(powers)))
    for i, d in enumerate(rows):
        for p, coef in d.items():
            j = powers.index(p)
            tf[i, j] = coef * math.sqrt(fact2(2 * p[0] - 1) * fact2(2 * p[1] - 1) * fact2(2 * p[2] - 1) / fact2(2 * l - 1))
    return tf


def norm_cart(alpha, p):
    return math.sqrt((4 * alpha) ** sum(p) * (2 * alpha / math.pi) ** 1.5 / (fact2(2 * p[0] - 1) * fact2(2 * p[1] - 1) * fact2(2 * p[2] - 1)))


def moment_1d(i, j, pa, pb, p):
    """int (t+pa)^i (t+pb)^j exp(-p t^2) dt / sqrt(pi/p)"""
    poly = np.polynomial.polynomial.polymul(np.polynomial.polynomial.polypow([pa, 1.0], i), np.polynomial.polynomial.polypow([pb, 1.0], j))
    total = 0.0
    for m, c in enumerate(poly):
        if m % 2 == 0:
            total += c * fact2(m - 1) / (2 * p) ** (m // 2)
    return total


def prim_block(la, a, A, lb, b, B):
    """Overlap of normalised Cartesian primitives (alphabetical order) of angular momenta la, lb."""
    p = a + b
    P = (a * A + b * B) / p
    K = math.exp(-a * b / p * float(np.dot(A - B, A - B))) * (math.pi / p) ** 1.5
    pa_, pb_ = cart_powers(la), cart_powers(lb)
    out = np.zeros((len(pa_), len(pb_)))
    for i, na in enumerate(pa_):
        for j, nb in enumerate(pb_):
            v = K
            for d in range(3):
                v *= moment_1d(na[d], nb[d], P[d] - A[d], P[d] - B[d], p)
            out[i, j] = v * norm_cart(a, na) * norm_cart(b, nb)
    return out


def contraction_list(shells):
    """[(icenter, l, kind, exponents, coeffs)] in shell order then contraction order."""
    out = []
    for sh in shells:
        for l, k, col in zip(sh.angmoms, sh.kinds, sh.coeffs.T):
            out.append((sh.icenter, int(l), str(k), np.asarray(sh.exponents, float), np.asarray(col, float)))
    return out


def overlap_oracle(basis0, coords0, basis1=None, coords1=None, conventions_std=None, screened=None):
    """Overlap in the *standard* ordering (Cartesian alphabetical, pure c0 c1 s1 ...); the caller applies conventions.

    With screened=<threshold> a second matrix is returned: the part of the result that comes from pairs of primitives
    whose Gaussian-product prefactor exp(-a b |A-B|^2 / (a+b)) lies below the threshold, or from pairs of shells for which
    that holds for the two smallest exponents (what an implementation that screens on the prefactor leaves out)."""
    c0 = contraction_list(basis0.shells)
    c1 = c0 if basis1 is None else contraction_list(basis1.shells)
    X0 = np.asarray(coords0, float)
    X1 = X0 if basis1 is None else np.asarray(coords1, float)
    blocks, dblocks = [], []
    for ic, l, k, ex, co in c0:
        row, drow = [], []
        for jc, l2, k2, ex2, co2 in c1:
            blk, dblk = 0.0, np.zeros((len(cart_powers(l)), len(cart_powers(l2))))
            r2 = float(np.dot(X0[ic] - X1[jc], X0[ic] - X1[jc]))
            amin, bmin = float(np.min(ex)), float(np.min(ex2))
            shell_out = screened is not None and not (math.exp(-amin * bmin * r2 / (amin + bmin)) > screened)
            for a, ca in zip(ex, co):
                for b, cb in zip(ex2, co2):
                    term = ca * cb * prim_block(l, a, X0[ic], l2, b, X1[jc])
                    blk = blk + term
                    if screened is not None and (shell_out or math.exp(-a * b / (a + b) * r2) < screened):
                        dblk = dblk + term
            if k == "p":
                blk = tf_matrix(l) @ blk
                dblk = tf_matrix(l) @ dblk
            if k2 == "p":
                blk = blk @ tf_matrix(l2).T
                dblk = dblk @ tf_matrix(l2).T
            row.append(blk)
            drow.append(dblk)
        blocks.append(np.hstack(row))
        dblocks.append(np.hstack(drow))
    if screened is not None:
        return np.vstack(blocks), np.vstack(dblocks)
    return np.vstack(blocks)


def std_labels(shells):
    out = []
    for sh in shells:
        for l, k in zip(sh.angmoms, sh.kinds):
            l = int(l)
            if k == "c":
                out += [(l, "c", "x" * a + "y" * b + "z" * c if l else "1") for a, b, c in cart_powers(l)]
            else:
                names = ["c0"] + [f"{t}{m}" for m in range(1, l + 1) for t in "cs"]
                out += [(l, "p", n) for n in names]
    return out


def apply_conventions(mat, basis, axis):
    """Reorder / sign-flip the standard-ordered matrix into the basis' own conventions along `axis`."""
    perm, signs = [], []
    off = 0
    for sh in basis.shells:
        for l, k in zip(sh.angmoms, sh.kinds):
            l = int(l)
            std = ["x" * a + "y" * b + "z" * c if l else "1" for a, b, c in cart_powers(l)] if k == "c" else ["c0"] + [f"{t}{m}" for m in range(1, l + 1) for t in "cs"]
            conv = basis.conventions[(l, str(k))]
            for lab in conv:
                s = -1 if lab.startswith("-") else 1
                perm.append(off + std.index(lab.lstrip("-")))
                signs.append(s)
            off += len(std)
    perm, signs = np.array(perm), np.array(signs)
    if axis == 0:
        return mat[perm] * signs[:, None]
    return mat[:, perm] * signs[None, :]
