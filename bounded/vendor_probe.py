"""Vendor-encoded Molden / Molekel files (bounded stand-in for C05).

usage: /venv/bin/python vendor_probe.py <seed> <quick|thorough>
A random true wavefunction (orthonormal orbitals) is encoded the way each program is known to deviate from the Molden
standard, written as Molden and Molekel, loaded with iodata and compared with the truth by the independent evaluator of
bounded/overlap_oracle.py (orbital values at probe points, orthonormality w.r.t. the returned basis).
Encodings (written from the documentation of the deviations, norm(a, n) = L2 norm constant of x^nx y^ny z^nz exp(-a r^2)):
  standard    nothing
  orca        contraction coefficients multiplied by norm(a,(0,0,0)) [s], norm(a,(1,0,0)) [p], norm(a,(1,1,0)) [pure d],
              norm(a,(1,1,1)) [pure f], norm(a,(2,1,1)) [pure g]; pure f: c3,s3 and pure g: c3,s3,c4,s4 sign-flipped
  psi4-1.0    like orca for s, p; pure d: norm(a,(1,1,0))/sqrt(3), pure f: norm(a,(1,1,1))/sqrt(15); no sign flips
  turbomole   Cartesian d, f, g contraction coefficients multiplied by 1/sqrt(3), 1/sqrt(15), 1/sqrt(105)
  cfour       MO coefficients of Cartesian d, f, g functions multiplied by the AO-norm ratios of CFOUR
  unnormalized  contraction coefficients of every shell scaled by an arbitrary factor (true contractions are normalised)
  psi4-1.3.2  unnormalized + MO coefficients of Cartesian d, f, g functions multiplied by sqrt((2l-1)!!/((2nx-1)!!(2ny-1)!!(2nz-1)!!))
Negative cases: an orbital scaled by 1.3, the beta block scaled, one basis-function row scaled: must be rejected."""

import copy
import json
import os
import sys
import tempfile
import warnings

import numpy as np

sys.path.insert(0, os.path.dirname(os.path.abspath(__file__)))
import overlap_oracle as oo  # noqa: E402

from iodata import IOData, dump_one, load_one  # noqa: E402
from iodata.basis import MolecularBasis, Shell  # noqa: E402
from iodata.formats import molden  # noqa: E402
from iodata.orbitals import MolecularOrbitals  # noqa: E402
from iodata.overlap import compute_overlap  # noqa: E402
from iodata.utils import LoadError, LoadWarning, angstrom  # noqa: E402

seed = int(sys.argv[1]) if len(sys.argv) > 1 else 0
tier = sys.argv[2] if len(sys.argv) > 2 else "quick"
shard, nshard = (int(x) for x in (sys.argv[3] if len(sys.argv) > 3 else "0/1").split("/"))
tmp = tempfile.mkdtemp()
__import__("atexit").register(__import__("shutil").rmtree, tmp, True)
CONV = {k: list(v) for k, v in molden.CONVENTIONS.items()}


def fact2(n):
    return 1 if n <= 0 else n * fact2(n - 2)


def norm(a, n):
    return oo.norm_cart(a, n)


def truth(case_seed, lset, kind, unrestricted, normalized, displace=0.0):
    """True wavefunction: grouped shells, Molden conventions, segmented, orthonormal orbitals."""
    rng = np.random.default_rng(case_seed)
    natom = int(rng.integers(1, 4))
    atnums = rng.choice([1, 6, 7, 8], size=natom)
    atcoords = rng.uniform(-1.2, 1.2, size=(natom, 3)) + np.arange(natom)[:, None] * np.array([1.5, 0.3, -0.4])
    shells = []
    for iatom in range(natom):
        for l in lset if iatom == 0 else [0] + [int(x) for x in rng.choice(lset, size=1)]:
            nexp = int(rng.integers(1, 4))
            exps = np.sort(np.exp(rng.uniform(np.log(0.2), np.log(5.0), size=nexp)))[::-1] * (1 + 0.07 * len(shells))
            coeffs = rng.uniform(0.3, 1.0, size=(nexp, 1))
            k = kind if l >= 2 else "c"
            shells.append(Shell(iatom, [l], [k], exps, coeffs))
    obasis = MolecularBasis(shells, CONV, "L2")
    # same basis set data, other geometry (a point of a scan)
    atcoords = atcoords * (1.0 + displace) + displace * np.array([0.3, -0.2, 0.1])
    if normalized:
        for sh in shells:
            one = MolecularBasis([Shell(0, sh.angmoms, sh.kinds, sh.exponents, sh.coeffs)], CONV, "L2")
            sh.coeffs[:] /= np.sqrt(compute_overlap(one, np.zeros((1, 3)))[0, 0])
    nb = obasis.nbasis
    s = compute_overlap(obasis, atcoords)
    w, v = np.linalg.eigh(s)
    if w.min() < 1e-5:
        return None
    xm = (v / np.sqrt(w)) @ v.T
    q, _ = np.linalg.qr(np.random.default_rng(case_seed + 1).normal(size=(nb, nb)))
    ca = xm @ q
    nocc = max(1, nb // 3)
    ergs = np.sort(rng.uniform(-10, 3, size=nb))
    if unrestricted:
        q2, _ = np.linalg.qr(np.random.default_rng(case_seed + 2).normal(size=(nb, nb)))
        cb = xm @ q2
        occs = np.array([1.0] * nocc + [0.0] * (nb - nocc) + [1.0] * max(nocc - 1, 0) + [0.0] * (nb - max(nocc - 1, 0)))
        mo = MolecularOrbitals("unrestricted", nb, nb, occs, np.hstack([ca, cb]), np.concatenate([ergs, ergs + 0.1]))
    else:
        occs = np.array([2.0] * nocc + [0.0] * (nb - nocc))
        mo = MolecularOrbitals("restricted", nb, nb, occs, ca, ergs)
    return IOData(atnums=atnums, atcoords=atcoords, obasis=obasis, mo=mo, title="truth")


def rows_of(obasis):
    """[(shell index, l, kind, label)] per basis-function row."""
    out = []
    for i, sh in enumerate(obasis.shells):
        l, k = int(sh.angmoms[0]), str(sh.kinds[0])
        for lab in obasis.conventions[(l, k)]:
            out.append((i, l, k, lab))
    return out


def encode(data, vendor, rng):
    """Object whose Molden/Molekel dump is the file `vendor` would have written for the true wavefunction `data`.
    Returns None when the encoding does not differ from the standard for this basis."""
    d = copy.deepcopy(data)
    changed = False
    rows = rows_of(d.obasis)
    scale_rows = np.ones(len(rows))
    for sh in d.obasis.shells:
        l, k = int(sh.angmoms[0]), str(sh.kinds[0])
        for ip, a in enumerate(sh.exponents):
            f = 1.0
            if vendor in ("orca", "psi4-1.0"):
                if l == 0:
                    f = norm(a, (0, 0, 0))
                elif l == 1:
                    f = norm(a, (1, 0, 0))
                elif l == 2 and k == "p":
                    f = norm(a, (1, 1, 0)) / (np.sqrt(3.0) if vendor == "psi4-1.0" else 1.0)
                elif l == 3 and k == "p":
                    f = norm(a, (1, 1, 1)) / (np.sqrt(15.0) if vendor == "psi4-1.0" else 1.0)
                elif l == 4 and k == "p" and vendor == "orca":
                    f = norm(a, (2, 1, 1))
            elif vendor == "turbomole" and k == "c" and l >= 2:
                f = 1.0 / np.sqrt(fact2(2 * l - 1))
            if f != 1.0:
                sh.coeffs[ip, 0] *= f
                changed = True
        if vendor in ("unnormalized", "psi4-1.3.2"):
            sh.coeffs[:] *= rng.uniform(1.3, 2.5)
            changed = True
    for r, (_i, l, k, lab) in enumerate(rows):
        if vendor == "orca" and k == "p" and ((l == 3 and lab in ("c3", "s3")) or (l == 4 and lab in ("c3", "s3", "c4", "s4"))):
            scale_rows[r] = -1.0
            changed = True
        if vendor in ("cfour", "psi4-1.3.2") and k == "c" and l >= 2:
            nx, ny, nz = lab.count("x"), lab.count("y"), lab.count("z")
            ratio = np.sqrt(fact2(2 * l - 1) / (fact2(2 * nx - 1) * fact2(2 * ny - 1) * fact2(2 * nz - 1)))
            # psi4 <= 1.3.2: coefficients refer to functions that all carry the norm of x^l; cfour: the inverse convention
            scale_rows[r] = ratio if vendor == "psi4-1.3.2" else ratio / np.sqrt(fact2(2 * l - 1))
            changed = changed or scale_rows[r] != 1.0
    if not changed:
        return None
    d.mo.coeffs[:] = d.mo.coeffs * scale_rows[:, None]
    return d


def basis_values(obasis, atcoords, points):
    rows = []
    for sh in obasis.shells:
        r = points - np.asarray(atcoords)[sh.icenter]
        r2 = (r**2).sum(axis=1)
        for l, kind, col in zip(sh.angmoms, sh.kinds, np.asarray(sh.coeffs).T):
            l = int(l)
            powers = oo.cart_powers(l)
            cart = np.zeros((len(powers), len(points)))
            for a, ck in zip(sh.exponents, col):
                for i, p in enumerate(powers):
                    cart[i] += ck * oo.norm_cart(a, p) * r[:, 0] ** p[0] * r[:, 1] ** p[1] * r[:, 2] ** p[2] * np.exp(-a * r2)
            if kind == "c":
                std = ["x" * a + "y" * b + "z" * c if l else "1" for a, b, c in powers]
                vals = cart
            else:
                std = ["c0"] + [f"{t}{m}" for m in range(1, l + 1) for t in "cs"]
                vals = oo.tf_matrix(l) @ cart
            for lab in obasis.conventions[(l, str(kind))]:
                sgn = -1.0 if lab.startswith("-") else 1.0
                rows.append(sgn * vals[std.index(lab.lstrip("-"))])
    return np.array(rows)


def same_wavefunction(true, got, points):
    if got.mo.kind != true.mo.kind or got.mo.coeffs.shape != true.mo.coeffs.shape:
        return "kind-or-shape"
    vt = true.mo.coeffs.T @ basis_values(true.obasis, true.atcoords, points)
    vg = got.mo.coeffs.T @ basis_values(got.obasis, got.atcoords, points)
    if np.abs(vt - vg).max() > 2e-5 * max(1.0, np.abs(vt).max()):
        return "orbital-values"
    if not np.allclose(got.mo.occs, true.mo.occs) or not np.allclose(got.mo.energies, true.mo.energies, atol=1e-6):
        return "occupations-or-energies"
    s = compute_overlap(got.obasis, got.atcoords)
    for c in (got.mo.coeffsa, got.mo.coeffsb):
        if np.abs(np.einsum("ia,ij,ja->a", c, s, c) - 1).max() > 1e-4:
            return "not-orthonormal-in-returned-basis"
    return None


def to_angstrom_unit(text):
    """Rewrite the [Atoms] block of a Molden file from AU to Angs."""
    out, inside = [], False
    for line in text.splitlines():
        if line.strip().lower().startswith("[atoms]"):
            out.append("[Atoms] Angs")
            inside = True
            continue
        if inside and line.strip().startswith("["):
            inside = False
        if inside and line.strip():
            w = line.split()
            xyz = [float(x) / angstrom for x in w[3:6]]
            out.append(f"{w[0]:2s} {w[1]:>3s} {w[2]:>3s}  {xyz[0]:25.18f} {xyz[1]:25.18f} {xyz[2]:25.18f}")
            continue
        out.append(line)
    return "\n".join(out) + "\n"


groups = {}
ncase = {}


def rec(name, detail, case):
    g = groups.setdefault(name, [])
    if len(g) < 3:
        g.append(dict(case, detail=str(detail)[:300]))


def load_with_warnings(fn, fmt, thr):
    with warnings.catch_warnings(record=True) as ws:
        warnings.simplefilter("always")
        obj = load_one(fn, fmt=fmt, norm_threshold=thr)
    return obj, [str(w.message) for w in ws if issubclass(w.category, LoadWarning)]


VENDORS = ["standard", "orca", "psi4-1.0", "turbomole", "cfour", "unnormalized", "psi4-1.3.2"]
LSETS = {"c": [[0, 1], [0, 1, 2], [0, 2, 3], [0, 1, 2, 3, 4]], "p": [[0, 1, 2], [0, 1, 2, 3], [0, 2, 3, 4]]}
nrep = 1 if tier == "quick" else 4
idx = 0
for vendor in VENDORS:
    for kind in ("c", "p"):
        if vendor in ("turbomole", "cfour", "psi4-1.3.2") and kind == "p":
            continue  # these deviations concern Cartesian d, f, g functions
        for lset in LSETS[kind]:
            for unrestricted in (False, True):
                for rep in range(nrep):
                    idx += 1
                    if idx % nshard != shard:
                        continue
                    cs = seed * 7919 + idx * 13 + rep
                    rng = np.random.default_rng(cs + 5)
                    true = truth(cs, lset, kind, unrestricted, normalized=vendor in ("unnormalized", "psi4-1.3.2", "standard"))
                    if true is None:
                        continue
                    enc = true if vendor == "standard" else encode(true, vendor, rng)
                    if enc is None:
                        continue
                    points = np.random.default_rng(cs + 9).uniform(-2, 3, size=(6, 3))
                    for fmt in ("molden", "molekel"):
                        if fmt == "molekel" and max(lset) > 3 and kind == "c":
                            pass
                        fn = os.path.join(tmp, f"v{cs}.{fmt}")
                        case = {"vendor": vendor, "format": fmt, "kind": kind, "lset": lset, "unrestricted": unrestricted, "case_seed": cs}
                        try:
                            dump_one(enc, fn, fmt=fmt)
                        except Exception as exc:  # noqa: BLE001
                            rec(f"{fmt}.{vendor}.generator-cannot-write", repr(exc), case)
                            continue
                        variants = [("AU", fn)]
                        if fmt == "molden":
                            fn2 = fn + ".angs"
                            with open(fn) as fh, open(fn2, "w") as fo:
                                fo.write(to_angstrom_unit(fh.read()))
                            variants.append(("Angs", fn2))
                        for unit, path in variants:
                            for thr in ((1e-6, 1e-4, 1e-2) if fmt == "molden" else (1e-4, 1e-2)) if tier == "thorough" or unit == "AU" else (1e-4,):  # Molekel prints 10-12 decimals: 1e-6 is below its own rounding
                                key = f"{fmt}.{vendor}"
                                ncase[key] = ncase.get(key, 0) + 1
                                c2 = dict(case, unit=unit, norm_threshold=thr)
                                try:
                                    got, ws = load_with_warnings(path, fmt, thr)
                                except LoadError as exc:
                                    rec(f"{key}.rejected", exc, c2)
                                    continue
                                except Exception as exc:  # noqa: BLE001
                                    rec(f"{key}.crash", repr(exc), c2)
                                    continue
                                tol_pts = points
                                why = same_wavefunction(true, got, tol_pts)
                                if why and not (fmt == "molekel" and why == "orbital-values" and False):
                                    rec(f"{key}.wrong-wavefunction.{why}", ws, c2)
                                if vendor == "standard" and ws:
                                    rec(f"{key}.corrected-although-standard", ws, c2)
                                if vendor != "standard" and not ws:
                                    rec(f"{key}.no-warning", "", c2)
                        # the next point of a geometry scan in the same process: same basis set, other coordinates
                        if vendor in ("standard", "turbomole") and rep == 0:
                            for step in (0.35, 0.7):
                                t2 = truth(cs, lset, kind, unrestricted, normalized=vendor == "standard", displace=step)
                                if t2 is None:
                                    continue
                                e2 = t2 if vendor == "standard" else encode(t2, vendor, np.random.default_rng(cs + 5))
                                key = f"{fmt}.{vendor}.scan"
                                ncase[key] = ncase.get(key, 0) + 1
                                c2 = dict(case, scan_step=step)
                                try:
                                    dump_one(e2, fn + ".scan", fmt=fmt)
                                    got, ws = load_with_warnings(fn + ".scan", fmt, 1e-4)
                                except LoadError as exc:
                                    rec(f"{key}.rejected", exc, c2)
                                    continue
                                why = same_wavefunction(t2, got, points)
                                if why:
                                    rec(f"{key}.wrong-wavefunction.{why}", ws, c2)
                                if vendor == "standard" and ws:
                                    rec(f"{key}.corrected-although-standard", ws, c2)
                        # negative cases: corrupted encodings must be rejected (threshold 1e-4)
                        for corr in ("one-orbital", "beta-block", "one-row") if (tier == "thorough" or max(lset) <= 3) else ():
                            bad = copy.deepcopy(enc)
                            nb = bad.obasis.nbasis
                            if corr == "one-orbital":
                                bad.mo.coeffs[:, bad.mo.coeffs.shape[1] - 1] *= 1.3
                            elif corr == "beta-block":
                                if not unrestricted:
                                    continue
                                bad.mo.coeffsb[:] *= 1.25
                            else:
                                bad.mo.coeffs[nb - 1, :] *= 1.9
                            key = f"{fmt}.corrupted-{corr}"
                            ncase[key] = ncase.get(key, 0) + 1
                            try:
                                dump_one(bad, fn + ".bad", fmt=fmt)
                                got, ws = load_with_warnings(fn + ".bad", fmt, 1e-4)
                            except LoadError:
                                continue
                            except Exception as exc:  # noqa: BLE001
                                rec(f"{key}.crash", repr(exc), dict(case, corruption=corr))
                                continue
                            # accepted: only a defect if what was loaded is not orthonormal / not what the file says
                            s = compute_overlap(got.obasis, got.atcoords)
                            dev = max(np.abs(np.einsum("ia,ij,ja->a", c, s, c) - 1).max() for c in (got.mo.coeffsa, got.mo.coeffsb))
                            if dev > 1e-3:
                                rec(f"{key}.loaded-with-unnormalised-orbitals", f"max norm deviation {dev:.3f}; warnings {ws}", dict(case, corruption=corr))

print(json.dumps({"groups": groups, "cases": ncase}, default=str))
